"""C02 - AES-GCM one-shot: the structural clauses (PARTIAL; ciphertext and tag values are not decided).

Engine: object code of the CPU-specific GCM bodies named by the GCM dispatchers (sse / avx_gen2 / avx_gen4 /
vaes_avx512, regular and non-temporal, one-shot / update / finalize), default build; phase-1 pointer provenance
(lib/absint.py), alignment-demanding encodings (lib/align.py), value-set interpretation of the tag-length
argument (lib/valset.py).

R02.1 "for any buffer alignment": in every regular (not _nt) body no alignment-demanding instruction addresses
      memory through the in, out or aad argument; in the _nt bodies (documented 64-byte rule for in/out) none
      addresses memory through aad.
R02.2 "the 8-, 12- or 16-byte tag": in every body that takes (auth_tag, auth_tag_len), under the entry assumption
      auth_tag_len = L for L in {8, 12, 16} the stores that remain reachable and whose address derives from
      auth_tag are at constant offsets, unmasked, and cover exactly the bytes [0, L) - no byte beyond the tag
      buffer is written and none of its bytes is left unwritten.
R02.5 "the same for separate and in-place buffers": with the input and output pointers equated, no load through the
      input argument reads bytes that a store through the output argument has already written on some path to it
      (symbolic linear address forms with lockstep-aware joins, lib/inplace.py); pairs whose symbolic parts differ
      are not judged.
R02.6 "every AAD length": the GHASH length block carries len(A) and len(C) as 64-bit bit counts - no 32-bit move
      (movd / vmovd from a 32-bit sub-register, 32-bit mov) takes a value loaded from ctx->aad_length or
      ctx->in_length, or derived from the aad_len / len arguments, into a vector register in any body that
      builds the length block (one-shot and finalize).
R02.7 GHASH schedule of the one-shot bodies (lib/ghash.py, the monomial interpretation described under C07 R07.5):
      for every one-shot body, AAD lengths {12, 20, 48} x a set of data lengths that exercises every aggregation
      depth (and AAD lengths 1..130 with short data), the 16 bytes written through auth_tag must contain block j of
      the m AAD blocks times H^(m-j+n+1), block i of the n data blocks (the last one padded) times H^(n-i+1), and
      the length block times H.  The key table is what the same family's precomp body stores.
R02.8 AAD schedule of init: ctx->aad_hash after init contains AAD block j times H^(m-j) for every AAD length 1..799
      (thorough: 1..1599).
R02.9 AES round typestate in the 64 bodies that produce output (one-shot and update; lib/aesrounds.py on the path each
      length selects, update also with 8 pending bytes): every counter block goes through the whitening and rounds
      1..Nr of the key schedule at key_data in order, the last round in its *last form (the VAES bodies fold the data
      into the last round key - followed), and only finished blocks are stored through out (ctx->partial_block_enc_key is taken to hold the finished
      key-stream block an earlier call left there).
R02.10 counter byte mirror: the AVX2 and VAES families keep the low byte of the counter in a general register (movd
      from the counter block, and 255) to decide when the cheap big-endian add may be used.  For every compare of
      that register with an immediate followed by a conditional branch, the largest value the register can have on
      the edge that takes the cheap add, plus the immediate of the first `add` to the register reached from that
      edge, must not exceed 255 - otherwise the cheap add is used when the counter byte wraps and the carry is lost.
      Guards that are not followed by an advance (the last group of blocks of a message) are judged on the length
      skeleton instead: where the run forks on such a compare, largest cheap-path value + blocks still to be produced
      (a lower bound: the bytes of the
      message neither written nor even read at that point) must not exceed 255.
R02.11 sliding-window byte masks: the sse / avx families fetch the mask for a trailing partial block as an unaligned
      16-byte window over two adjacent constants (sixteen ff bytes followed by sixteen 00 bytes).  On the length
      skeleton every constant fetched that way and consumed by a (v)pand must consist of 00 and ff bytes only - the
      layout of the constant tables is part of the algorithm.
R02.3 instance floor: the four families are all offered by every GCM dispatcher of the one-shot / update /
      finalize interfaces; 96 bodies carry the argument list of aes/aes_gcm.c.
"""
import collections

import absint
import align
import build
import c19
import cands
import ghash
import aesrounds
import re
import inplace
import ir
import par
import valset
import x86
from report import Finding

LEVEL = "other"
RULE_TEXT = __doc__.split("\n\n", 2)[2].replace("\n      ", " ")
ARGREGS = ["RDI", "RSI", "RDX", "RCX", "R8", "R9"]
TAG_LENS = (8, 12, 16)


def argloc(k):
    return ARGREGS[k] if k < 6 else "ARG@%d" % (8 + 8 * (k - 6))


def flat_roots(v):
    rs = absint.roots(v)
    if rs is None:
        return None
    flat = set()
    for r in rs:
        if isinstance(r, str):
            flat.add(r)
        elif isinstance(r, tuple) and r and r[0] == "ld":
            flat |= {x for x in r[1] if isinstance(x, str)}
    return flat


BIG = (5, 7, 8, 9, 12, 15, 16, 17, 24, 31, 32, 33, 40, 47, 48, 49, 50, 64, 65)


def gh_rules(lib, key, name, sig, extra, out, add):
    fields = extra["ctx_fields"]
    thorough = extra.get("tier") == "thorough"
    m1 = re.match(r"^_aes_gcm_(enc|dec)_(128|256)_(sse|avx_gen2|avx_gen4|vaes_avx512)(_nt)?$", name)
    m2 = re.match(r"^_aes_gcm_init_(128|256)_(sse|avx_gen2|avx_gen4|vaes_avx512)$", name)
    if not (m1 or m2) or not fields:
        return
    bits_, fam = (m1.group(2), m1.group(3)) if m1 else (m2.group(1), m2.group(2))
    keymem, pre_name = ghash.precomp_keymem(lib, bits_, fam)
    if keymem is None:
        out["broken"].append("%s: the precomp body %s could not be interpreted (no H in the key table)" % (name, pre_name))
        return
    f = lib.func(key)
    cases = []
    if m1:
        data = (list(range(1, 1150)) if thorough else list(range(1, 81)) + [16 * k + r for k in BIG for r in (0, 1, 15)])
        for A_ in (12, 20, 48):
            cases += [(A_, L) for L in data]
        cases += [(A_, L) for A_ in (list(range(1, 131)) + [16 * k + r for k in (16, 17, 23, 24, 31, 32, 33, 47, 48, 49) for r in (-1, 0, 1)] if not thorough else range(1, 900)) for L in (5, 16)]
    else:
        cases = [(A_, None) for A_ in range(1, 1600 if thorough else 800)]
    judged = notj = 0
    why = None
    bad = None
    for (A_, L) in cases:
        mch = ghash.run_case(lib, f, sig, fields, keymem, L=L, aad_len=A_)
        rr = mch.result
        if rr.stopped or not rr.returned or not mch.finals:
            notj += 1
            why = why or rr.stopped or "no return reached"
            continue
        judged += 1
        if bad:
            continue
        m_ = (A_ + 15) // 16
        for fin in mch.finals:
            if m1:
                n = (L + 15) // 16
                got = ghash.collect(fin, "auth_tag")
                want = [(("AAD", j), m_ - j + n + 1) for j in range(m_)] + [(("D", k), n - k + 1) for k in range(n)] + [("L", 1)]
                where = "the tag"
            else:
                got = ghash.collect(fin, "context_data", fields["aad_hash"][0], fields["aad_hash"][0] + 16)
                want = [(("AAD", j), m_ - j) for j in range(m_)]
                where = "ctx->aad_hash"
            miss = ghash.first_missing(got, want)
            if miss:
                w, have = miss
                bad = (A_, L, "%s must reach %s multiplied by H^%d; on this path it arrives %s" % (ghash.describe(w[0]), where, w[1], ("multiplied by H^" + ", H^".join(map(str, have))) if have else "not at all"))
                break
    kind = "oneshot" if m1 else "init"
    out["gh_judged"] = out.get("gh_judged", 0) + judged
    out["gh_notjudged"] = out.get("gh_notjudged", 0) + notj
    out["gh_" + kind] = out.get("gh_" + kind, 0) + 1
    if notj and len(out.setdefault("gh_why", [])) < 3:
        out["gh_why"].append("%s: %s" % (name, why))
    if judged == 0:
        out["broken"].append("%s: no run of the GHASH interpretation could be followed (%s)" % (name, why))
    if bad:
        add("R02.7" if m1 else "R02.8", name, "ghash:aad=%d,len=%s" % (bad[0], bad[1]), ("with aad_len = %d and len = %d: " % (bad[0], bad[1]) if m1 else "with aad_len = %d: " % bad[0]) + bad[2], f.entry, key[1])
    else:
        out["gh_ok_" + kind] = out.get("gh_ok_" + kind, 0) + 1


def mirror_rule(lib, key, name, out, add):
    f = lib.func(key)
    P_ = x86.PARENT
    mirrors = set()
    for b, bl in f.blocks.items():
        for k, i in enumerate(bl):
            if i.mem < 0 and i.op in ("AND32ri", "AND32ri8", "AND64ri8", "AND64ri32") and (i.imm(2) or 0) == 255 and k > 0:
                j = bl[k - 1]
                if j.mem < 0 and j.op in ("VMOVPDI2DIrr", "MOVPDI2DIrr", "VMOVPDI2DIZrr", "VMOVPQIto64rr", "MOVPQIto64rr", "VMOVPQIto64Zrr") and P_.get(j.reg(0)) == P_.get(i.reg(0)):
                    mirrors.add(P_.get(i.reg(0)))
    paired = set()
    if not mirrors:
        return mirrors, paired
    byaddr = {i.addr: (b, k) for b, bl in f.blocks.items() for k, i in enumerate(bl)}
    for b, bl in f.blocks.items():
        for k, i in enumerate(bl):
            m = re.match(r"^CMP(8|16|32|64)(ri8|ri|ri32)$", i.op)
            if not m or i.mem >= 0 or P_.get(i.reg(0)) not in mirrors:
                continue
            width = int(m.group(1))
            T = (i.imm(1) or 0) & ((1 << width) - 1)
            jcc = None
            for j in bl[k + 1:]:
                if j.is_cond():
                    jcc = j
                    break
                if "EFLAGS" in j.idefs or "EFLAGS" in j.explicit_defs():
                    break
            if jcc is None or T > 255:
                continue
            cc = jcc.imm(1)
            tgt, fall = jcc.branch_target(), jcc.next
            if cc in (3, 13) and (cc == 3 or width >= 32):      # jae / jge: taken when M >= T
                fast, mx = fall, T - 1
            elif cc in (7, 15) and (cc == 7 or width >= 32):    # ja / jg
                fast, mx = fall, T
            elif cc in (2, 12) and (cc == 2 or width >= 32):    # jb / jl: taken when M < T
                fast, mx = tgt, T - 1
            elif cc in (6, 14) and (cc == 6 or width >= 32):    # jbe / jle
                fast, mx = tgt, T
            else:
                continue
            M = P_.get(i.reg(0))
            # first definition of the mirror reachable from the fast edge
            seen = set()
            work = [fast]
            adds = []
            while work:
                a = work.pop()
                if a in seen or a not in byaddr:
                    continue
                seen.add(a)
                bb, kk = byaddr[a]
                stop = False
                for j in f.blocks[bb][kk:]:
                    ds = [P_.get(d) for d in list(j.explicit_defs())]
                    if M in ds:
                        mm = re.match(r"^ADD(8|16|32|64)(ri8|ri|ri32)$", j.op)
                        if mm and j.mem < 0:
                            adds.append((j, (j.imm(2) or 0) & 0xFF))
                        stop = True
                        break
                    if j.is_ret():
                        stop = True
                        break
                if not stop:
                    work += f.succ.get(bb, [])
            if adds:
                paired.add(i.addr)
            for (j, N) in adds:
                out["mir_n"] = out.get("mir_n", 0) + 1
                if mx + N > 255:
                    add("R02.10", name, "counter-mirror", "`%s` / `%s`: the cheap big-endian counter add is taken while the counter's low byte can be as large as %d, and the byte is then advanced by %d (`%s`): for a low byte of %d the add wraps the byte and the carry into the upper counter bytes is lost" % (
                        i.text.strip(), jcc.text.strip(), mx, N, j.text.strip(), mx), i.addr, key[1])
                else:
                    out["mir_ok"] = out.get("mir_ok", 0) + 1
    return mirrors, paired


class GuardMachine(aesrounds.AesMachine):
    """AesMachine that also notes every undecided branch on a compare of a register with a constant, together with
    how far the output had been written at that moment."""

    def on_fork(self, branch, last_cmp):
        if last_cmp is None:
            return
        ci, T, w = last_cmp
        hi = 0
        hin = 0
        for (i, tag, off, size, rw, masked) in self.res.accesses:
            if tag == "out" and "w" in rw and off + size > hi:
                hi = off + size
            if tag == "in" and "r" in rw and off + size > hin:
                hin = off + size
        hi = max(hi, hin)       # bytes neither written nor even read yet certainly still need counter blocks: a lower bound
        if not hasattr(self, "guards"):
            self.guards = []
        self.guards.append((ci, T, w, branch, hi))


def aes_rule(lib, key, name, sig, extra, out, add, mirrors=(), paired=()):
    fields = extra["ctx_fields"]
    m = re.match(r"^_aes_gcm_(enc|dec)_(128|256)(_update)?_(sse|avx_gen2|avx_gen4|vaes_avx512)(_nt)?$", name)
    if not m or not fields:
        return
    thorough = extra.get("tier") == "thorough"
    nr_ = {"128": 10, "256": 14}[m.group(2)]
    f = lib.func(key)
    data = (list(range(1, 700)) if thorough else list(range(1, 81)) + [16 * k + r for k in BIG for r in (0, 1, 15)])
    pbs = (0, 8) if m.group(3) else (0,)
    bad = None
    jr = jl = ul = 0
    for PB in pbs:
        for L in (data if PB == 0 else data[:48]):
            mch = aesrounds.run_body(lib, f, sig, nr_, L, pb=PB, pboff=fields["partial_block_length"][0], carried_done=("context_data", fields["partial_block_enc_key"][0]), cls=GuardMachine)
            for (mi, cbytes) in getattr(mch.result, "mask_consts", []) or []:
                out["mask_n"] = out.get("mask_n", 0) + 1
                if any(x not in (0, 255) for x in cbytes) and not out.get("mask_bad_" + name):
                    out["mask_bad_" + name] = 1
                    add("R02.11", name, "byte-mask:len=%d" % L, "with len = %d: `%s` masks with the constant %s, fetched through a sliding window into the constant tables; a byte mask has only 00 and ff bytes - the window runs into a constant that is not the all-zero block it relies on" % (L, mi.text.strip(), cbytes.hex()), mi.addr, key[1])
            for (ci, T, w, br, hi) in getattr(mch, "guards", []):
                if x86.PARENT.get(ci.reg(0)) not in mirrors or ci.addr in paired or T > 255:
                    continue
                cc = br.imm(1)
                if cc in (3, 13):
                    mx = T - 1
                elif cc in (7, 15):
                    mx = T
                else:
                    continue
                if PB:
                    continue
                nblk = (L - hi + 15) // 16
                out["mir_n"] = out.get("mir_n", 0) + 1
                out["mir_unpaired"] = out.get("mir_unpaired", 0) + 1
                if mx + nblk > 255:
                    if not out.get("mir_bad_" + name):
                        out["mir_bad_" + name] = 1
                        add("R02.10", name, "counter-mirror:len=%d" % L, "with len = %d: `%s` / `%s` lets the cheap big-endian counter add run while the counter's low byte can be as large as %d, and %d counter block(s) are still to be produced from it (%d output bytes written so far): for a low byte of %d the last of them wraps the byte and the carry is lost" % (
                            L, ci.text.strip(), br.text.strip(), mx, nblk, hi, mx), ci.addr, key[1])
                else:
                    out["mir_ok"] = out.get("mir_ok", 0) + 1
            rr = mch.result
            if rr.stopped or not rr.returned:
                out["broken"].append("%s: length skeleton not followed for len = %d (%s)" % (name, L, rr.stopped))
                return
            jr += 1
            v, a_, b_ = aesrounds.judge(mch)
            jl += a_
            ul += b_
            out["rt_rounds"] = out.get("rt_rounds", 0) + mch.rounds_ok
            out["rt_unk"] = out.get("rt_unk", 0) + mch.rounds_unk
            if v and not bad:
                bad = (L, PB, v)
    out["rt_bodies"] = out.get("rt_bodies", 0) + 1
    out["rt_lanes"] = out.get("rt_lanes", 0) + jl
    out["rt_unl"] = out.get("rt_unl", 0) + ul
    out["rt_runs"] = out.get("rt_runs", 0) + jr
    if bad:
        add("R02.9", name, "aes-rounds:len=%d" % bad[0], "with len = %d%s: %s" % (bad[0], " and %d pending bytes" % bad[1] if bad[1] else "", bad[2][1]), bad[2][0].addr, key[1])
    else:
        out["rt_ok"] = out.get("rt_ok", 0) + 1


def worker(lib, objname, extra):
    cand = extra["cand"]
    o = lib.by_name[objname]
    out = {"findings": [], "broken": [], "bodies": 0, "sinks": 0, "buf_acc": 0, "tag_bodies": 0, "tag_cases": 0, "tag_ok": 0, "align_ok": 0, "samples": []}

    def add(rule, fn, construct, msg, addr, sec):
        out["findings"].append({"rule": rule, "obj": objname, "function": fn, "construct": construct, "message": msg, "loc": o.line_of(sec, addr) or "%s+%#x" % (objname, addr)})
    for key, name in lib.entry_list:
        if key[0] != objname or name not in cand:
            continue
        iface, sig = cand[name]
        f = lib.func(key)
        ip = absint.Interp(lib, lambda t, c=None: c19.summary_of(lib, t, c))
        p1 = ip.run(f)
        for b in p1.broken:
            out["broken"].append("%s::%s %s" % (objname, name, b))
        out["bodies"] += 1
        mirrors, paired = mirror_rule(lib, key, name, out, add) or (set(), set())
        gh_rules(lib, key, name, sig, extra, out, add)
        aes_rule(lib, key, name, sig, extra, out, add, mirrors, paired)
        names = {(s[0] if s else None): argloc(k) for k, s in enumerate(sig)}
        nt = name.endswith("_nt")
        free = {}
        for n in (("aad",) if nt else ("in", "out", "aad")):
            if n in names:
                free[names[n]] = n
        allins = [i for b in f.blocks.values() for i in b]
        # R02.1
        bad = None
        for i in allins:
            if i.mem < 0 or i.op.startswith("LEA"):
                continue
            m = p1.maddr.get(i.addr)
            fr = flat_roots(m[0]) if m else set()
            hit = sorted((fr or set()) & set(free))
            if hit:
                out["buf_acc"] += 1
            nd = align.need(i)
            if not nd:
                continue
            out["sinks"] += 1
            if bad is None and m is not None and fr is None:
                bad = (i, None, nd)
            elif bad is None and hit:
                bad = (i, hit[0], nd)
        if bad:
            i, r, nd = bad
            add("R02.1", name, "align:%s" % (free[r] if r else "unknown-address"),
                "`%s` demands %d-byte alignment of %s; GCM promises any buffer alignment%s" % (i.text.strip(), nd, "memory addressed through the caller's %s pointer (%s)" % (free[r], r.lower()) if r else "an address the provenance analysis cannot classify", " for the AAD also in the non-temporal variants" if nt else ""), i.addr, key[1])
        else:
            out["align_ok"] += 1
        # R02.5 in-place hazard
        if "in" in names and "out" in names and not names["in"].startswith("ARG@") and not names["out"].startswith("ARG@"):
            out["ip_bodies"] = out.get("ip_bodies", 0) + 1
            try:
                ipr = inplace.analyse(f, names["in"], names["out"], p1)
            except RuntimeError as e:
                out["broken"].append(str(e))
                ipr = None
            if ipr is not None:
                out["ip_pairs"] = out.get("ip_pairs", 0) + ipr.compared
                if ipr.hazards:
                    l, st_, d = ipr.hazards[0]
                    add("R02.5", name, "in-place", "`%s` reads the input at an address that `%s` (%s) has already written through the output pointer when in == out (%s; %d such pair(s)): an in-place call processes its own output instead of the caller's data" % (l.text.strip(), st_.text.strip(), o.line_of(key[1], st_.addr), d, len(ipr.hazards)), l.addr, key[1])
                else:
                    out["ip_ok"] = out.get("ip_ok", 0) + 1
        # R02.6 width of the length block
        if "auth_tag" in names and extra.get("ctx_fields") and "context_data" in names and not names["context_data"].startswith("ARG@"):
            ctxreg = names["context_data"]
            offs = {extra["ctx_fields"][k][0]: k for k in ("aad_length", "in_length")}
            out["lenblk_bodies"] = out.get("lenblk_bodies", 0) + 1
            p1k = absint.Interp(lib, lambda t, c=None: c19.summary_of(lib, t, c), keep_regs=True).run(f)
            nmoves = 0
            badm = None
            for i in allins:
                mn = i.text.strip().split()[0].lower()
                if mn not in ("movd", "vmovd", "movq", "vmovq", "pinsrd", "vpinsrd", "pinsrq", "vpinsrq"):
                    continue
                # GPR -> vector moves only
                srcs = [r for r in i.explicit_uses() if r in x86.PARENT]
                if not srcs or i.mem >= 0:
                    continue
                st_ = p1k.reg_at.get(i.addr) or {}
                v = st_.get(x86.PARENT[srcs[-1]])
                rs = absint.roots(v) if v is not None else None
                which = None
                for r in (rs or ()):
                    if isinstance(r, tuple) and r and r[0] == "ld" and ctxreg in r[1] and r[2] in offs:
                        which = "ctx->" + offs[r[2]]
                if which is None:
                    continue
                nmoves += 1
                if x86.WIDTH.get(srcs[-1], 64) < 64 and badm is None:
                    badm = (i, which, srcs[-1])
            out["lenblk_moves"] = out.get("lenblk_moves", 0) + nmoves
            if badm:
                i, which, r_ = badm
                add("R02.6", name, "length-block-width:" + which, "`%s` moves only the low 32 bits (%s) of a value derived from %s into the GHASH length block: for %s of 2^29 bytes or more the bit count is truncated and the tag differs from SP 800-38D (and from the families that move 64 bits)" % (i.text.strip(), r_.lower(), which, "an AAD" if "aad" in which else "a message"), i.addr, key[1])
            else:
                out["lenblk_ok"] = out.get("lenblk_ok", 0) + 1
        # R02.2
        if "auth_tag" in names and "auth_tag_len" in names:
            out["tag_bodies"] += 1
            tagloc, lenloc = names["auth_tag"], names["auth_tag_len"]
            written_slots = set()
            for i in allins:
                if i.writes_mem_operand():
                    m = p1.maddr.get(i.addr)
                    if m and m[0][0] == "sp":
                        written_slots.add(m[0][1])

            for L in TAG_LENS:
                def load_hook(i, _L=L):
                    if not lenloc.startswith("ARG@"):
                        return None
                    m = p1.maddr.get(i.addr)
                    if m and not m[1] and m[0][0] == "sp" and m[0][1] == int(lenloc[4:]) and m[0][1] not in written_slots:
                        return {_L}
                    return None
                entry = {lenloc: [L]} if not lenloc.startswith("ARG@") else {}
                try:
                    vs = valset.run(f, entry, load_hook=load_hook)
                except RuntimeError as e:
                    out["broken"].append(str(e))
                    continue
                out["tag_cases"] += 1
                covered = set()
                problems = []
                nst = 0
                for b in sorted(vs.reached):
                    for i in f.blocks[b]:
                        if not i.writes_mem_operand():
                            continue
                        m = p1.maddr.get(i.addr)
                        if m is None:
                            continue
                        fr = flat_roots(m[0])
                        if fr is None or tagloc not in fr:
                            continue
                        nst += 1
                        v = m[0]
                        size = i.memsize() or m[2]
                        if v[0] != "init" or v[1] != tagloc or m[1]:
                            problems.append((i, "writes through auth_tag at a computed (non-constant) offset"))
                            continue
                        if "{" in i.text and "{z}" not in i.text.replace(" ", "") and "{k" in i.text.replace(" ", ""):
                            problems.append((i, "is a masked store whose extent the analysis cannot bound"))
                            continue
                        if not size:
                            problems.append((i, "has an operand size the analysis cannot read"))
                            continue
                        covered |= set(range(v[2], v[2] + size))
                over = sorted(x for x in covered if x < 0 or x >= L)
                missing = sorted(set(range(L)) - covered)
                ok = not problems and not over and not missing
                if ok:
                    out["tag_ok"] += 1
                else:
                    if problems:
                        i, why = problems[0]
                        add("R02.2", name, "tag_len=%d" % L, "with auth_tag_len = %d `%s` stays reachable and %s" % (L, i.text.strip(), why), i.addr, key[1])
                    elif over:
                        add("R02.2", name, "tag_len=%d" % L, "with auth_tag_len = %d the reachable stores through auth_tag write bytes %d..%d, beyond the %d-byte tag (%d store(s); branches decided: %s)" % (L, over[0], over[-1], L, nst, "; ".join("%s -> %s" % (t, w) for (_a, t, w) in vs.decided[-4:]) or "none"), f.entry, key[1])
                    else:
                        add("R02.2", name, "tag_len=%d" % L, "with auth_tag_len = %d the reachable stores through auth_tag leave byte(s) %s of the tag unwritten (%d store(s))" % (L, ",".join(map(str, missing[:6])), nst), f.entry, key[1])
            if len(out["samples"]) < 1:
                out["samples"].append({"function": name, "auth_tag": tagloc, "auth_tag_len": lenloc})
    return out


def run(chk):
    units, stats = build.build("default")
    lib = x86.Library(units)
    chk.extra["build"] = stats
    mods = ir.load_modules([u for u in units if u["kind"] == "c" and u["src"] in ("aes/aes_gcm.c", "aes/gcm_pre.c")])
    cand, ndisp = cands.candidates(chk, lib, mods, "aes/", ["_aes_gcm_"])
    chk.floor("GCM dispatchers", ndisp, 24)
    chk.floor("GCM CPU-specific bodies", len(cand), 96)
    fams = collections.defaultdict(set)
    for c, (iface, sig) in cand.items():
        for fam in ("sse", "avx_gen2", "avx_gen4", "vaes_avx512"):
            if c.endswith("_" + fam) or c.endswith("_" + fam + "_nt"):
                fams[iface].add(fam)
    for iface in sorted(fams):
        ok = len(fams[iface]) == 4
        chk.obligation("R02.3", ok, key=("families", iface), sample={"interface": iface, "families": sorted(fams[iface])})
        if not ok:
            chk.broke("dispatcher of %s offers only %s" % (iface, sorted(fams[iface])))
    nbind = cands.binding_rule(chk, "R02.4", lib, ['_aes_gcm_'])
    chk.floor("implementations checked for binding ownership", nbind, 1)
    objs = sorted({lib._by_name[c][0] for c in cand if c in lib._by_name})
    ctx_fields = None
    for M_ in mods.values():
        ds = M_.distructs.get("isal_gcm_context_data")
        if ds:
            ctx_fields = {m["name"]: (m["off"], m["size"]) for m in ds["members"]}
    if not ctx_fields or "aad_length" not in ctx_fields or "in_length" not in ctx_fields:
        chk.broke("struct isal_gcm_context_data not found in DWARF")
    res = par.map_objects(lib, worker, objs, extra={"cand": cand, "ctx_fields": ctx_fields, "tier": chk.tier})
    tot = collections.Counter()
    for objname in sorted(res):
        r = res[objname]
        for k in ("bodies", "sinks", "buf_acc", "tag_bodies", "tag_cases", "tag_ok", "align_ok"):
            tot[k] += r[k]
        for k in ("ip_bodies", "ip_pairs", "ip_ok", "lenblk_bodies", "lenblk_moves", "lenblk_ok", "gh_judged", "gh_notjudged", "gh_oneshot", "gh_init", "gh_ok_oneshot", "gh_ok_init", "rt_bodies", "rt_ok", "rt_lanes", "rt_unl", "rt_runs", "rt_rounds", "rt_unk", "mir_n", "mir_ok", "mir_unpaired", "mask_n"):
            tot[k] += r.get(k, 0)
        for w_ in r.get("gh_why", []):
            if len(chk.notes) < 6:
                chk.notes.append("GHASH interpretation not followed: " + w_)
        for b in r["broken"]:
            chk.broke(b)
        for fd in r["findings"]:
            chk.finding(Finding(fd["rule"], fd["obj"], fd["function"], fd["construct"], fd["message"], loc=fd["loc"]))
        for s in r["samples"]:
            if len(chk.samples) < 6:
                chk.samples.append(dict(rule="R02.2", **s))
    chk.obligations["R02.1"] = [tot["bodies"], tot["align_ok"]]
    chk.obligations["R02.2"] = [tot["tag_cases"], tot["tag_ok"]]
    chk.obligations["R02.5"] = [tot["ip_bodies"], tot["ip_ok"]]
    chk.obligations["R02.6"] = [tot["lenblk_bodies"], tot["lenblk_ok"]]
    chk.obligations["R02.10"] = [tot["mir_n"], tot["mir_ok"]]
    chk.floor("counter byte-mirror guards judged (paired with their advance, or on the length skeleton)", tot["mir_n"], 500)
    chk.floor("last-group counter guards judged on the length skeleton", tot["mir_unpaired"], 300)
    n_maskbad = len([f_ for f_ in chk.findings if f_.rule == "R02.11"])
    chk.obligations["R02.11"] = [tot["mask_n"], tot["mask_n"] - n_maskbad]
    chk.floor("byte masks fetched through a sliding window and judged", tot["mask_n"], 1000)
    chk.obligations["R02.9"] = [tot["rt_bodies"], tot["rt_ok"]]
    chk.floor("bodies judged for the AES round typestate", tot["rt_bodies"], 64)
    chk.floor("GCM output blocks judged for the round typestate", tot["rt_lanes"], 100000)
    chk.extra["round_typestate"] = {"runs": tot["rt_runs"], "output_blocks_judged": tot["rt_lanes"], "output_blocks_not_judged": tot["rt_unl"], "round_steps_in_order": tot["rt_rounds"], "round_steps_not_judged": tot["rt_unk"]}
    chk.obligations["R02.7"] = [tot["gh_oneshot"], tot["gh_ok_oneshot"]]
    chk.obligations["R02.8"] = [tot["gh_init"], tot["gh_ok_init"]]
    chk.floor("one-shot bodies interpreted for the GHASH schedule", tot["gh_oneshot"], 32)
    chk.floor("init bodies interpreted for the AAD schedule", tot["gh_init"], 8)
    chk.floor("GHASH-schedule runs followed to a return", tot["gh_judged"], 15000)
    chk.extra["ghash_runs"] = {"followed": tot["gh_judged"], "not_followed": tot["gh_notjudged"]}
    chk.floor("bodies that build the GHASH length block", tot["lenblk_bodies"], 16)
    chk.floor("GPR-to-vector moves of the carried lengths seen", tot["lenblk_moves"], 24)
    chk.floor("bodies analysed for in-place hazards", tot["ip_bodies"], 64)
    chk.floor("output-store / input-load pairs with a common symbolic address compared", tot["ip_pairs"], 10000)
    chk.extra["in_place_pairs_compared"] = tot["ip_pairs"]
    for c in cand:
        chk.distinct.add(("body", c))
    chk.floor("GCM bodies analysed", tot["bodies"], 96)
    chk.floor("bodies with (auth_tag, auth_tag_len)", tot["tag_bodies"], 48)
    chk.floor("tag-length cases analysed", tot["tag_cases"], 144)
    chk.floor("accesses through in/out/aad seen", tot["buf_acc"], 3000)
    chk.trusted += ["LLVM 14 MC decoding", "the argument order of the _aes_gcm_* interfaces as used by aes/aes_gcm.c"]
    chk.assumptions += ["stack-passed arguments are read from their System V slots above the return address", "alignment faults arise only from the encodings listed in lib/align.py"]
    chk.extra.update({"bodies": tot["bodies"], "alignment_demanding_instructions": tot["sinks"], "accesses_through_free_alignment_buffers": tot["buf_acc"], "tag_bodies": tot["tag_bodies"], "tag_length_cases": tot["tag_cases"],
                      "not_decided": "ciphertext and tag values (AES-CTR / GHASH arithmetic), in-place operation, agreement between CPU-specific implementations"})
    return ("%d GCM bodies: none of %d alignment-demanding instructions addresses in/out/aad (%d accesses through them); %d bodies x tag lengths {8,12,16}: the reachable stores through auth_tag cover exactly [0,len)." %
            (tot["bodies"], tot["sinks"], tot["buf_acc"], tot["tag_bodies"]))
