"""C03 - AES-XTS: the structural clauses (PARTIAL; the IEEE 1619 values themselves are not decided).

Engine: object code of the 24 CPU-specific XTS bodies named by the 8 XTS dispatchers (sse / avx / vaes x enc /
dec x raw / expanded key), default build; phase-1 pointer provenance (lib/absint.py) + value-set abstract
interpretation of the length register (lib/valset.py) + the table of alignment-demanding encodings (lib/align.py).

R03.1 "for lengths below 16 neither buffer is touched": under the entry assumption len in [0,15] (the length is
      the interface's only non-pointer argument) no instruction that remains reachable has a memory operand whose
      address derives from the input or the output argument.  The public legacy entry points XTS_AES_* forward to
      the bodies without any check of their own, so the bodies' own test is what the clause rests on.
R03.2 "for any alignment of data, keys and tweak": no alignment-demanding instruction (legacy-SSE 16-byte memory
      operand other than movdqu/movups/lddqu; (v)movdqa / (v)movaps / (v)movnt*) addresses memory through any of
      the five pointer arguments (key2, key1, tweak, in, out) - aligned accesses go to the function's own
      (explicitly aligned) stack frame and to constant tables only.
R03.5 "in place and out of place": with the input and output pointers equated, no load through the input argument
      reads bytes that a store through the output argument has already written on some path to it (lib/inplace.py:
      symbolic linear address forms, pointers advanced in lockstep stay related across loop heads); pairs whose
      symbolic parts differ are not judged.
R03.6 AES round typestate in the 12 expanded-key bodies (lib/aesrounds.py, on the path each length 16..299 selects;
      thorough ..699): the tweak goes through the whitening and rounds 1..Nr of the k2 schedule, every data block
      through those of the k1 schedule, round keys in order, the last round in its *last form, and only finished
      blocks (or bytes assembled from finished blocks: ciphertext stealing) are stored through out.  The 12 raw-key
      bodies expand their keys inline into registers and their frame; their rounds are not judged.
R03.7 tweak sequence in all 24 bodies (raw and expanded key): in the sse / avx bodies the tweak is multiplied by alpha
      in a pair of general registers (shl / adc / conditional xor) and written to the frame in halves, in the VAES
      bodies four tweaks per register are made with per-lane variable left shifts (counts read from the constant
      table), byte shifts (alpha^8) and qword rotations across lanes; the exponent of alpha travels with the value
      (lib/aesrounds.py).  For every length 16..299 the value stored as output block j depends on T*alpha^j; with a
      trailing partial block the last full position depends on alpha^m when encrypting and alpha^(m-1) when
      decrypting, and the trailing bytes on the other one (ciphertext stealing swaps the last two tweaks for
      decryption).  The adc that doubles the high half must consume the carry flag of the shl of the low half (no
      flag-writing instruction in between).  Only the last store to each position counts; a value that no tweak symbol reached is not judged.
R03.3 every XTS body is reached: each of the 8 dispatchers offers an sse, an avx and a vaes candidate and every
      candidate has the 6-argument signature taken from aes/aes_xts.c (anchor / instance floor).
Positive control: under len in [16,31] the same analysis does reach accesses through both buffers in every body.
"""
import collections

import re

import absint
import aesrounds
import align
import build
import c19
import cands
import inplace
import ir
import par
import valset
import x86
from report import Finding

LEVEL = "other"
RULE_TEXT = __doc__.split("\n\n", 2)[2].replace("\n      ", " ")
ARGREGS = ["RDI", "RSI", "RDX", "RCX", "R8", "R9"]


def classify(sig):
    """-> (length reg, {reg: param name} for data buffers, {reg: param name} for all pointer params) or None"""
    if sig is None or len(sig) != 6:
        return None
    lens = [k for k, s in enumerate(sig) if s is not None and "*" not in (s[2] or "") and s[0] != "<local>"]
    if len(lens) != 1:
        return None
    ptrs = {ARGREGS[k]: (s[0] or "arg%d" % k) for k, s in enumerate(sig) if k != lens[0]}
    bufs = {ARGREGS[k]: (sig[k][0] or "arg%d" % k) for k in range(lens[0] + 1, 6)}
    if len(bufs) != 2:
        return None
    return ARGREGS[lens[0]], bufs, ptrs


def worker(lib, objname, extra):
    cand = extra["cand"]
    o = lib.by_name[objname]
    out = {"findings": [], "broken": [], "bodies": 0, "ins_reachable": 0, "mem_reachable": 0, "aligned_sinks": 0, "ptr_accesses": 0, "samples": [], "control_fail": []}
    for key, name in lib.entry_list:
        if key[0] != objname or name not in cand:
            continue
        iface, sig = cand[name]
        cl = classify(sig)
        if cl is None:
            out["broken"].append("%s: cannot identify the length / buffer arguments from the signature %r" % (name, sig))
            continue
        lenreg, bufs, ptrs = cl
        f = lib.func(key)
        ip = absint.Interp(lib, lambda t, c=None: c19.summary_of(lib, t, c))
        p1 = ip.run(f)
        for b in p1.broken:
            out["broken"].append("%s::%s %s" % (objname, name, b))
        out["bodies"] += 1
        if re.search(r"_(sse|avx|vaes)$", name):
            nr7 = {128: 10, 256: 14}[int(re.search(r"_(128|256)_", name).group(1))]
            bad7 = None
            n7 = 0
            for L in range(16, 700 if extra.get("tier") == "thorough" else 300):
                mch = aesrounds.run_body(lib, f, sig, nr7, L)
                if mch.result.stopped or not mch.result.returned:
                    out["broken"].append("%s: length skeleton not followed for len = %d (%s)" % (name, L, mch.result.stopped))
                    break
                v7, k7 = aesrounds.judge_tweaks(mch, L, "_dec_" in name)
                cv = [x for x in mch.viol if "carry flag" in x[1]]
                if cv and not v7:
                    v7 = (cv[0][0], "`%s`: %s" % (cv[0][0].text.strip(), cv[0][1]))
                n7 += k7
                if v7 and not bad7:
                    bad7 = (L, v7)
            out["tw_bodies"] = out.get("tw_bodies", 0) + 1
            out["tw_stores"] = out.get("tw_stores", 0) + n7
            if bad7:
                out["findings"].append({"rule": "R03.7", "obj": objname, "function": name, "construct": "tweak:len=%d" % bad7[0], "message": "with len = %d: %s" % (bad7[0], bad7[1][1]), "loc": o.line_of(key[1], bad7[1][0].addr) or objname})
            else:
                out["tw_ok"] = out.get("tw_ok", 0) + 1
        if "expanded_key" in name:
            nr_ = {128: 10, 256: 14}[int(re.search(r"_(128|256)_", name).group(1))]
            hi_ = 700 if extra.get("tier") == "thorough" else 300
            bad6 = None
            jr = jl = ul = 0
            for L in range(16, hi_):
                mch = aesrounds.run_body(lib, f, sig, nr_, L)
                rr = mch.result
                if rr.stopped or not rr.returned:
                    out["broken"].append("%s: length skeleton not followed for len = %d (%s)" % (name, L, rr.stopped))
                    break
                jr += 1
                v, a_, b_ = aesrounds.judge(mch)
                jl += a_
                ul += b_
                out["rt_rounds"] = out.get("rt_rounds", 0) + mch.rounds_ok
                out["rt_unk"] = out.get("rt_unk", 0) + mch.rounds_unk
                if v and not bad6:
                    bad6 = (L, v)
            out["rt_bodies"] = out.get("rt_bodies", 0) + 1
            out["rt_lanes"] = out.get("rt_lanes", 0) + jl
            out["rt_unl"] = out.get("rt_unl", 0) + ul
            out["rt_runs"] = out.get("rt_runs", 0) + jr
            if bad6:
                out["findings"].append({"rule": "R03.6", "obj": objname, "function": name, "construct": "aes-rounds:len=%d" % bad6[0], "message": "with len = %d: %s" % (bad6[0], bad6[1][1]), "loc": o.line_of(key[1], bad6[1][0].addr) or objname})
            else:
                out["rt_ok"] = out.get("rt_ok", 0) + 1

        def through(i, regs):
            m = p1.maddr.get(i.addr)
            if m is None:
                so = i.string_op()
                return None if so is None else "?"
            rs = absint.roots(m[0])
            if rs is None:
                return "?"
            flat = set()
            for r in rs:
                if isinstance(r, tuple) and r and r[0] == "ld":
                    flat |= {x for x in r[1] if isinstance(x, str)}
                elif isinstance(r, str):
                    flat.add(r)
            hit = sorted(flat & set(regs))
            return hit or None

        # R03.1
        try:
            vs = valset.run(f, {lenreg: range(0, 16)})
        except RuntimeError as e:
            out["broken"].append(str(e))
            continue
        bad = []
        nmem = 0
        for b in sorted(vs.reached):
            for i in f.blocks[b]:
                out["ins_reachable"] += 1
                if i.is_call() or (i.is_branch() and i.is_indirect()):
                    bad.append((i, "an indirect transfer / call is reachable (callee effects unknown)"))
                    continue
                if i.mem < 0 or i.op.startswith("LEA"):
                    continue
                nmem += 1
                h = through(i, bufs)
                if h == "?":
                    bad.append((i, "the address of this access is unknown to the provenance analysis"))
                elif h:
                    bad.append((i, "accesses memory through %s" % ", ".join("%s (%s)" % (bufs[r], r.lower()) for r in h)))
        out["mem_reachable"] += nmem
        if bad:
            i, why = bad[0]
            out["findings"].append({"rule": "R03.1", "obj": objname, "function": name, "construct": "len<16",
                                    "message": "with len in [0,15] `%s` stays reachable and %s (%d such instruction(s); decided branches: %s)" % (i.text.strip(), why, len(bad), "; ".join("%s -> %s" % (t, w) for (_a, t, w) in vs.decided[:4]) or "none"),
                                    "loc": o.line_of(key[1], i.addr) or "%s+%#x" % (objname, i.addr)})
        out["r031_ok" if not bad else "r031_bad"] = out.get("r031_ok" if not bad else "r031_bad", 0) + 1
        # positive control: len in [16,31] must reach accesses through both buffers
        vc = valset.run(f, {lenreg: range(16, 32)})
        seen = set()
        for b in vc.reached:
            for i in f.blocks[b]:
                if i.mem >= 0 and not i.op.startswith("LEA"):
                    h = through(i, bufs)
                    if h and h != "?":
                        seen |= set(h)
        if seen != set(bufs):
            out["control_fail"].append("%s: with len in [16,31] only %s of the buffers %s are seen accessed" % (name, sorted(seen), sorted(bufs)))
        # R03.5 in-place hazard
        inr = [r for r, n_ in bufs.items() if n_ == "in"]
        outr = [r for r, n_ in bufs.items() if n_ == "out"]
        if len(inr) == 1 and len(outr) == 1:
            out["ip_bodies"] = out.get("ip_bodies", 0) + 1
            try:
                ipr = inplace.analyse(f, inr[0], outr[0], p1)
                out["ip_pairs"] = out.get("ip_pairs", 0) + ipr.compared
                out["ip_match"] = out.get("ip_match", 0) + ipr.matchable
                if not ipr.matchable:
                    out["broken"].append("%s: the in-place analysis relates no input-load address shape to any output-store address shape (it would pass vacuously)" % name)
                if ipr.hazards:
                    l, st_, d = ipr.hazards[0]
                    out["findings"].append({"rule": "R03.5", "obj": objname, "function": name, "construct": "in-place",
                                            "message": "`%s` reads the input at an address that `%s` (%s) has already written through the output pointer when in == out (%s; %d such pair(s)): an in-place call processes its own output instead of the caller's data" % (l.text.strip(), st_.text.strip(), o.line_of(key[1], st_.addr), d, len(ipr.hazards)),
                                            "loc": o.line_of(key[1], l.addr) or "%s+%#x" % (objname, l.addr)})
                else:
                    out["ip_ok"] = out.get("ip_ok", 0) + 1
            except RuntimeError as e:
                out["broken"].append(str(e))
        else:
            out["broken"].append("%s: in/out arguments not identified by name (%r)" % (name, bufs))
        # R03.2
        nb = 0
        for i in align.sinks(f):
            out["aligned_sinks"] += 1
            h = through(i, ptrs)
            if h == "?":
                nb += 1
                out["findings"].append({"rule": "R03.2", "obj": objname, "function": name, "construct": "align:unknown-address",
                                        "message": "`%s` demands %d-byte alignment of an address the provenance analysis cannot classify" % (i.text.strip(), align.need(i)),
                                        "loc": o.line_of(key[1], i.addr) or "%s+%#x" % (objname, i.addr)})
                break
            if h:
                nb += 1
                out["findings"].append({"rule": "R03.2", "obj": objname, "function": name, "construct": "align:" + ptrs[h[0]],
                                        "message": "`%s` demands %d-byte alignment of memory addressed through the caller's %s pointer (%s); the interface promises any alignment" % (i.text.strip(), align.need(i), ptrs[h[0]], h[0].lower()),
                                        "loc": o.line_of(key[1], i.addr) or "%s+%#x" % (objname, i.addr)})
                break
        out["r032_ok" if not nb else "r032_bad"] = out.get("r032_ok" if not nb else "r032_bad", 0) + 1
        for i in (x for b in f.blocks.values() for x in b):
            if i.mem >= 0 and not i.op.startswith("LEA"):
                h = through(i, ptrs)
                if h and h != "?":
                    out["ptr_accesses"] += 1
        if len(out["samples"]) < 1:
            out["samples"].append({"function": name, "interface": iface, "length_register": lenreg, "buffers": bufs, "blocks_reachable_len_lt_16": len(vs.reached), "blocks_total": len(f.blocks),
                                   "branches_decided": ["%s -> %s" % (t, w) for (_a, t, w) in vs.decided], "memory_accesses_reachable": nmem, "alignment_demanding_instructions": len(align.sinks(f))})
    return out


def run(chk):
    units, stats = build.build("default")
    lib = x86.Library(units)
    chk.extra["build"] = stats
    mods = ir.load_modules([u for u in units if u["kind"] == "c" and u["src"].startswith("aes/aes_xts")])
    cand, ndisp = cands.candidates(chk, lib, mods, "aes/", ["_XTS_AES_"])
    chk.floor("XTS dispatchers", ndisp, 8)
    chk.floor("XTS CPU-specific bodies", len(cand), 24)
    # R03.3: every dispatcher offers the three families
    fams = collections.defaultdict(set)
    for c, (iface, sig) in cand.items():
        fams[iface].add(c.rsplit("_", 1)[-1])
        chk.obligation("R03.3", classify(sig) is not None, key=("sig", c))
    for iface in sorted(fams):
        ok = {"sse", "avx", "vaes"} <= fams[iface]
        chk.obligation("R03.3", ok, key=("families", iface), sample={"interface": iface, "families": sorted(fams[iface])})
        if not ok:
            chk.broke("dispatcher of %s offers only %s" % (iface, sorted(fams[iface])))
    nbind = cands.binding_rule(chk, "R03.4", lib, ['_XTS_AES_'])
    chk.floor("implementations checked for binding ownership", nbind, 1)
    objs = sorted({lib._by_name[c][0] for c in cand if c in lib._by_name})
    res = par.map_objects(lib, worker, objs, extra={"cand": cand, "tier": chk.tier})
    tot = collections.Counter()
    for objname in sorted(res):
        r = res[objname]
        for k in ("bodies", "ins_reachable", "mem_reachable", "aligned_sinks", "ptr_accesses", "r031_ok", "r031_bad", "r032_ok", "r032_bad", "ip_bodies", "ip_ok", "ip_pairs", "ip_match", "rt_bodies", "rt_ok", "rt_lanes", "rt_unl", "rt_runs", "rt_rounds", "rt_unk", "tw_bodies", "tw_ok", "tw_stores"):
            tot[k] += r.get(k, 0)
        for b in r["broken"]:
            chk.broke(b)
        for b in r["control_fail"]:
            chk.broke("positive control: " + b)
        for fd in r["findings"]:
            chk.finding(Finding(fd["rule"], fd["obj"], fd["function"], fd["construct"], fd["message"], loc=fd["loc"]))
        for s in r["samples"]:
            if len(chk.samples) < 8:
                chk.samples.append(dict(rule="R03.1", **s))
    chk.obligations["R03.1"] = [tot["bodies"], tot["r031_ok"]]
    chk.obligations["R03.2"] = [tot["bodies"], tot["r032_ok"]]
    chk.obligations["R03.5"] = [tot["ip_bodies"], tot["ip_ok"]]
    chk.obligations["R03.6"] = [tot["rt_bodies"], tot["rt_ok"]]
    chk.obligations["R03.7"] = [tot["tw_bodies"], tot["tw_ok"]]
    chk.floor("bodies judged for the tweak sequence", tot["tw_bodies"], 24)
    chk.floor("output positions judged for their tweak", tot["tw_stores"], 60000)
    chk.floor("expanded-key bodies judged for the AES round typestate", tot["rt_bodies"], 12)
    chk.floor("XTS output blocks judged for the round typestate", tot["rt_lanes"], 30000)
    chk.extra["round_typestate"] = {"runs": tot["rt_runs"], "output_blocks_judged": tot["rt_lanes"], "output_blocks_not_judged": tot["rt_unl"], "round_steps_in_order": tot["rt_rounds"], "round_steps_not_judged": tot["rt_unk"]}
    chk.floor("bodies analysed for in-place hazards", tot["ip_bodies"], 24)
    chk.extra["in_place_pairs_compared"] = tot["ip_pairs"]
    chk.extra["in_place_address_shapes_shared_by_loads_and_stores"] = tot["ip_match"]
    chk.floor("address shapes shared by input loads and output stores (in-place analysis not vacuous)", tot["ip_match"], 100)
    for c in cand:
        chk.distinct.add(("body", c))
    chk.floor("XTS bodies analysed", tot["bodies"], 24)
    chk.floor("alignment-demanding instructions classified", tot["aligned_sinks"], 2000)
    chk.floor("accesses through the pointer arguments seen", tot["ptr_accesses"], 1500)
    chk.trusted += ["LLVM 14 MC decoding (operands, memory operand size)", "the argument order of the _XTS_AES_* interface as used by aes/aes_xts.c"]
    chk.assumptions += ["the length is passed in the interface's only non-pointer argument (System V register %s)" % "rcx",
                        "alignment faults arise only from the encodings listed in lib/align.py (Intel SDM vol.1 14.9 / vol.2 Table 2-21 Type 1/2 exceptions)"]
    chk.extra.update({"bodies": tot["bodies"], "instructions_reachable_with_len_lt_16": tot["ins_reachable"], "memory_accesses_reachable_with_len_lt_16": tot["mem_reachable"],
                      "alignment_demanding_instructions": tot["aligned_sinks"], "accesses_through_pointer_arguments": tot["ptr_accesses"],
                      "not_decided": "ciphertext values (IEEE 1619), ciphertext stealing arithmetic, raw-key == expanded-key agreement, in-place operation"})
    return ("%d XTS bodies: with len in [0,15] only the tweak-encryption prologue and the epilogue stay reachable (%d instructions, %d memory accesses, none through the data buffers); "
            "none of the %d alignment-demanding instructions addresses memory through a caller pointer (%d accesses through pointer arguments, all alignment-free encodings)." %
            (tot["bodies"], tot["ins_reachable"], tot["mem_reachable"], tot["aligned_sinks"], tot["ptr_accesses"]))
